(* C05 — run termination and done flags are exact.
   Model: Model/Sched.v.  Proofs: Proofs/SchedCycleStop.v (stop rule),
   Proofs/SchedCycleDone.v (done-flag invariant over all interpreter functions),
   Proofs/SchedCycleDue.v (forced close touches no flag; reference model).
   See manifest.d/C05.json for what is full / partial. *)
From Hio Require Import Base.Prelude Base.AMap Base.Time Model.Sched Proofs.SchedFrame Proofs.SchedLife Proofs.SchedTop
  Proofs.SchedCycleTick Proofs.SchedCycleDue Proofs.SchedCycleStop Proofs.SchedCycleDone Proofs.SchedCycleFlag Proofs.SchedCycleTree Proofs.SchedAdo Proofs.SchedHist Proofs.SchedCycleHist.

(* Vocabulary (Proofs/SchedCycleStop.v), all for the root scheduler:
     entered fuel p        the state after Doist.enter, in which the cycle loop starts
     enter_ok fuel p       enter did not raise (and had fuel)
     after tk fuel s k     the state at the end of k complete cycles from s (pass, then tick)
     cycle_ok tk fuel s    the pass of the cycle starting in s neither raises nor runs out of fuel
     stops limit stop s2   the test at the end of a cycle: deque empty, or (limit truthy and stop <= tyme)
     finish tk fuel s2     what do() does then: done := True iff the deque is empty; exit; return
     run_limit p = |limit| , run_stop p = start + |limit| (start + 0 without a limit). *)

(* ------------------------------------------------------------------ *)
(* 1. The stop rule.  FULL: every program (dynamic, nested, any limit), every time
   instance.  If n is the first cycle at whose end the test holds (and no pass up
   to there raises), the run ends exactly there: n+1 ticks after the start, with
   Doist.done = True iff the deque was empty (else whatever it was: see 3.). *)
Theorem C05_stop_rule :
  forall (T : Type) (TT : Time T) (cycles fuel : nat) (p : prog T) (n : nat),
    let tk := p_tock p in let s0 := entered fuel p in
    enter_ok fuel p = true -> (n < cycles)%nat ->
    (forall j, (j <= n)%nat -> cycle_ok tk fuel (after tk fuel s0 j) = true) ->
    (forall j, (j < n)%nat -> stops (run_limit p) (run_stop p) (after tk fuel s0 (S j)) = false) ->
    stops (run_limit p) (run_stop p) (after tk fuel s0 (S n)) = true ->
    let s2 := after tk fuel s0 (S n) in
    do_run cycles fuel p = finish tk fuel s2 /\
    tyme (do_run cycles fuel p) = grid (p_tyme p) (p_tock p) (S n) /\
    get_done (do_run cycles fuel p) 0%N =
      match deeds (get_sched s2 0%N) with [] => Some true | _ => get_done s2 0%N end.
Proof. intros. now apply do_run_stop. Qed.
Print Assumptions C05_stop_rule.

(* ... and nothing else can happen: every run either exhausts a budget (oof), or
   fails in enter, or stops by the rule at some cycle n, or is ended by a pass
   that raises (no tick; DoRaise, or DoReturn for a KeyboardInterrupt). *)
Theorem C05_exhaustive :
  forall (T : Type) (TT : Time T) (cycles fuel : nat) (p : prog T),
    let tk := p_tock p in let s0 := entered fuel p in
    oof (do_run cycles fuel p) = true \/
    (exists s1 kbd, enter_own tk fuel (init_st p) 0%N (p_doers p) = (s1, GRaise kbd) /\
        do_run cycles fuel p = emit (close_own tk fuel s1 0%N) DoRaise 0%N) \/
    (exists n, (n < cycles)%nat /\
       (forall j, (j <= n)%nat -> cycle_ok tk fuel (after tk fuel s0 j) = true) /\
       (forall j, (j < n)%nat -> stops (run_limit p) (run_stop p) (after tk fuel s0 (S j)) = false) /\
       stops (run_limit p) (run_stop p) (after tk fuel s0 (S n)) = true /\
       do_run cycles fuel p = finish tk fuel (after tk fuel s0 (S n))) \/
    (exists n s1 kbd, (n < cycles)%nat /\
       (forall j, (j < n)%nat -> cycle_ok tk fuel (after tk fuel s0 j) = true /\
                                stops (run_limit p) (run_stop p) (after tk fuel s0 (S j)) = false) /\
       recur_pass tk fuel (after tk fuel s0 n) 0%N = (s1, GRaise kbd) /\
       do_run cycles fuel p = emit (close_own tk fuel s1 0%N) (if kbd then DoReturn else DoRaise) 0%N).
Proof.
  intros T TT cycles fuel p. cbv zeta.
  destruct (enter_ok fuel p) eqn:Ok.
  - rewrite (do_run_loop cycles fuel p Ok).
    destruct (cycle_loop_cases (p_tock p) fuel (run_limit p) (run_stop p) cycles (entered fuel p)) as [O|[C|C]].
    + left. exact O.
    + right. right. left. exact C.
    + right. right. right. exact C.
  - unfold enter_ok in Ok. unfold do_run.
    destruct (enter_own (p_tock p) fuel (init_st p) 0%N (p_doers p)) as [s1 r] eqn:E. cbn [snd] in Ok.
    destruct r as [t| |kbd|]; try discriminate.
    + right. left. exists s1, kbd. split; reflexivity.
    + left. exact (enter_own_fuel _ _ _ _ _ _ E).
Qed.
Print Assumptions C05_exhaustive.

(* ------------------------------------------------------------------ *)
(* 2. Without a limit (None, or falsy: 0.0): the run ends exactly after the first
   cycle at whose end the deque is empty, with Doist.done = True.  FULL. *)
Theorem C05_nolimit :
  forall (T : Type) (TT : Time T) (cycles fuel : nat) (p : prog T) (n : nat),
    let tk := p_tock p in let s0 := entered fuel p in
    limited (run_limit p) = false ->
    enter_ok fuel p = true -> (n < cycles)%nat ->
    (forall j, (j <= n)%nat -> cycle_ok tk fuel (after tk fuel s0 j) = true) ->
    (forall j, (j < n)%nat -> deeds (get_sched (after tk fuel s0 (S j)) 0%N) <> []) ->
    deeds (get_sched (after tk fuel s0 (S n)) 0%N) = [] ->
    tyme (do_run cycles fuel p) = grid (p_tyme p) (p_tock p) (S n) /\
    get_done (do_run cycles fuel p) 0%N = Some true.
Proof.
  intros T TT cycles fuel p n. cbv zeta. intros L Ok Hc Oks Ne Em.
  destruct (do_run_stop cycles fuel p n Ok Hc Oks) as (_ & Ty & Dn).
  - intros j Hj. rewrite (stops_nolimit _ _ _ L). specialize (Ne j Hj).
    destruct (deeds (get_sched (after (p_tock p) fuel (entered fuel p) (S j)) 0%N)) eqn:Ed; congruence.
  - rewrite (stops_nolimit _ _ _ L), Em. reflexivity.
  - split; [exact Ty|]. rewrite Dn, Em. reflexivity.
Qed.
Print Assumptions C05_nolimit.

(* ------------------------------------------------------------------ *)
(* 3. With a truthy limit L: the run ends after the first cycle whose end tyme
   satisfies start + |L| <= tyme or whose deque is empty; Doist.done = True iff
   the deque was empty at that point.  FULL for programs in which no doer is
   numbered 0 (0 is the root Doist; the harness never uses it for a doer). *)
Theorem C05_limit :
  forall (T : Type) (TT : Time T) (cycles fuel : nat) (p : prog T) (n : nat),
    let tk := p_tock p in let s0 := entered fuel p in
    get (p_defs p) 0%N = None ->
    limited (run_limit p) = true ->
    enter_ok fuel p = true -> (n < cycles)%nat ->
    (forall j, (j <= n)%nat -> cycle_ok tk fuel (after tk fuel s0 j) = true) ->
    (forall j, (j < n)%nat -> deeds (get_sched (after tk fuel s0 (S j)) 0%N) <> [] /\
                              tleb (run_stop p) (grid (p_tyme p) tk (S j)) = false) ->
    (deeds (get_sched (after tk fuel s0 (S n)) 0%N) = [] \/ tleb (run_stop p) (grid (p_tyme p) tk (S n)) = true) ->
    tyme (do_run cycles fuel p) = grid (p_tyme p) (p_tock p) (S n) /\
    (get_done (do_run cycles fuel p) 0%N = Some true <-> deeds (get_sched (after tk fuel s0 (S n)) 0%N) = []).
Proof.
  intros T TT cycles fuel p n. cbv zeta. intros R L Ok Hc Oks Ne St.
  assert (Ty : forall k, tyme (after (p_tock p) fuel (entered fuel p) k) = grid (p_tyme p) (p_tock p) k).
  { intro k. rewrite after_tyme, entered_tyme. reflexivity. }
  destruct (do_run_stop cycles fuel p n Ok Hc Oks) as (_ & Tyf & Dn).
  - intros j Hj. rewrite (stops_limit _ _ _ L), Ty. destruct (Ne j Hj) as [N1 N2].
    destruct (deeds (get_sched (after (p_tock p) fuel (entered fuel p) (S j)) 0%N)) eqn:Ed; [congruence|exact N2].
  - rewrite (stops_limit _ _ _ L), Ty. destruct St as [E|E]; [now rewrite E|].
    destruct (deeds (get_sched (after (p_tock p) fuel (entered fuel p) (S n)) 0%N)); [reflexivity|exact E].
  - split; [exact Tyf|]. rewrite Dn.
    pose proof (root_flag_not_true fuel p (S n) R) as Nt.
    destruct (deeds (get_sched (after (p_tock p) fuel (entered fuel p) (S n)) 0%N)); split; intro X;
      try reflexivity; try discriminate; contradiction.
Qed.
Print Assumptions C05_limit.

(* ------------------------------------------------------------------ *)
(* 4. Doer done flags.  FULL invariant, every program without a doer numbered 0,
   every time instance, any budgets, in the final state of the run:
   - a leaf doer's flag is True only if its most recent lifecycle is
     Enter Recur^n Clean Exit (it returned by itself, never forced, never raised)
     and step n of its script is `return True`;
   - a number that names no doer (other than the root) never has flag True. *)
Theorem C05_done_flags :
  forall (T : Type) (TT : Time T) (cycles fuel : nat) (p : prog T) (i : id),
    get (p_defs p) 0%N = None ->
    let s := do_run cycles fuel p in
    match get (p_defs p) i with
    | Some (FLeaf k sc) =>
        get_done s i = Some true ->
        exists n older, evs i s = Exit :: Clean :: repeat Recur n ++ Enter :: older /\
                        f_out (nth n sc default_step) = OReturn RTrue
    | Some (FNest _ _ _) => True
    | None => i <> 0%N -> get_done s i <> Some true
    end.
Proof.
  intros T TT cycles fuel p i R. cbv zeta.
  destruct (do_run_dinv cycles fuel p R) as (_ & A). specialize (A i). unfold dj, returned_true in A.
  destruct (get (p_defs p) i) as [[k sc|t al kids]|]; [exact (proj2 A)|exact I|].
  intro Ne. apply A. now right.
Qed.
Print Assumptions C05_done_flags.

(* the same invariant is preserved by every single scheduler operation from any
   state that satisfies it (one-step form) *)
Theorem C05_done_flags_preserved :
  forall (T : Type) (TT : Time T) (tk : T) (D : amap (fdef T)) (rootx : bool) (fuel : nat) (s : st T) (i sid : id),
    DInv D rootx s ->
    DInv D rootx (fst (gen_send tk fuel s i)) /\ DInv D rootx (gen_close tk fuel s i) /\
    DInv D rootx (fst (recur_pass tk fuel s sid)) /\ DInv D rootx (close_own tk fuel s sid) /\
    (get_done s i <> Some true -> DInv D rootx (fst (gen_start tk fuel s i))).
Proof.
  intros T TT tk D rootx fuel s i sid L.
  destruct (dinv_allf tk D rootx fuel) as (Ist & _ & Isd & Icl & Ico & _ & _ & _ & _ & Irp & _).
  split; [|split; [|split; [|split]]].
  - destruct (gen_send tk fuel s i) as [s' r] eqn:E. eapply Isd; eassumption.
  - now apply Icl.
  - destruct (recur_pass tk fuel s sid) as [s' r] eqn:E. eapply Irp; eassumption.
  - now apply Ico.
  - intro Nd. destruct (gen_start tk fuel s i) as [s' r] eqn:E. eapply Ist; eassumption.
Qed.
Print Assumptions C05_done_flags_preserved.

(* ------------------------------------------------------------------ *)
(* 4b. The exact flag rule.  FULL for every program without a doer numbered 0,
   every time instance, in the final state of every run that stayed within its
   budgets (oof = false).  With l = the lifecycle events of leaf i, newest first:
     l = []                               (never entered)        flag <> True
     l = Exit :: Clean :: Recur^n Enter.. (finished by itself)   flag = done_after kind r False,
                                                                  step n of its script being `return r`
     any other l (open, force-closed, raised, interrupted)       flag = False
   i.e. False from enter on, the returned value exactly when the doer finished on
   its own.  (flag_ok is exactly this three-way case distinction.) *)
Theorem C05_flags_exact :
  forall (T : Type) (TT : Time T) (cycles fuel : nat) (p : prog T) (i : id) k sc,
    get (p_defs p) 0%N = None -> oof (do_run cycles fuel p) = false ->
    get (p_defs p) i = Some (FLeaf k sc) ->
    let s := do_run cycles fuel p in
    match evs i s with
    | [] => get_done s i <> Some true
    | Exit :: Clean :: rest =>
        exists n older r, rest = repeat Recur n ++ Enter :: older /\
                          f_out (nth n sc default_step) = OReturn r /\
                          get_done s i = done_after k r (Some false)
    | _ => get_done s i = Some false
    end.
Proof. intros T TT cycles fuel p i k sc R O Lf. exact (do_run_flags cycles fuel p R O i k sc Lf). Qed.
Print Assumptions C05_flags_exact.

(* 4c. The same for DoDoers that are not `always`, in the final state of every run
   (any program without a doer numbered 0, oof = false).  With l = the DoDoer's
   lifecycle events, newest first:
     l = []                          (never entered)                flag <> True
     l = Exit :: Clean :: ...        (returned by itself, which it  flag = True
                                      does exactly when its deque is
                                      empty after a pass: C05_dodoer_flag)
     any other l (alive, force-closed, aborted)                     flag = False
   So the flag is True exactly when the DoDoer returned because its deque emptied,
   never while it still holds a child.  (An `always` DoDoer keeps running with
   done = True and is excluded.) *)
Theorem C05_dodoer_flags_exact :
  forall (T : Type) (TT : Time T) (cycles fuel : nat) (p : prog T) (i : id) t0 kids,
    get (p_defs p) 0%N = None -> oof (do_run cycles fuel p) = false ->
    get (p_defs p) i = Some (FNest t0 false kids) ->
    let s := do_run cycles fuel p in
    match evs i s with
    | [] => get_done s i <> Some true
    | Exit :: Clean :: _ => get_done s i = Some true
    | Clean :: _ => True
    | _ => get_done s i = Some false
    end.
Proof. intros T TT cycles fuel p i t0 kids R O N. exact (do_run_nest_flags cycles fuel p R O i t0 kids N). Qed.
Print Assumptions C05_dodoer_flags_exact.

(* ... preserved by every interpreter function from any state (XInv = out of
   budget, or the rule holds for every leaf; proved for all eleven functions at
   once, Proofs/SchedCycleFlag.v) *)
Theorem C05_flags_exact_preserved :
  forall (T : Type) (TT : Time T) (tk : T) (D : amap (fdef T)) (fuel : nat) (s : st T) (i sid : id),
    XInv D s ->
    XInv D (fst (gen_send tk fuel s i)) /\ XInv D (gen_close tk fuel s i) /\
    XInv D (fst (recur_pass tk fuel s sid)) /\ XInv D (close_own tk fuel s sid) /\
    XInv D (fst (gen_start tk fuel (set_done s i (Some false)) i)).
Proof.
  intros T TT tk D fuel s i sid L.
  destruct (xinv_allf tk D fuel) as (Ist & _ & Isd & Icl & Ico & _ & _ & _ & _ & Irp & _).
  split; [|split; [|split; [|split]]].
  - destruct (gen_send tk fuel s i) as [s' r] eqn:E. eapply Isd; eassumption.
  - now apply Icl.
  - destruct (recur_pass tk fuel s sid) as [s' r] eqn:E. eapply Irp; eassumption.
  - now apply Ico.
  - destruct (gen_start tk fuel (set_done s i (Some false)) i) as [s' r] eqn:E. eapply Ist; eassumption.
Qed.
Print Assumptions C05_flags_exact_preserved.

(* enter (Doist.enter, DoDoer.enter, extend): done := False before the doer starts *)
Theorem C05_enter_sets_false :
  forall (T : Type) (TT : Time T) (tk : T) (f : nat) (s : st T) (sid i : id) rest,
    enter_own tk (S f) s sid (i :: rest) =
    let '(s1, r) := gen_start tk f (set_done s i (Some false)) i in
    match r with
    | GYield _ => enter_own tk f (set_deeds s1 sid (deeds (get_sched s1 sid) ++ [DDeed i (tyme s1)])) sid rest
    | GReturn => enter_own tk f s1 sid rest
    | GRaise kbd => (s1, GRaise kbd)
    | GFuel => (s1, GFuel)
    end.
Proof. intros. apply enter_own_sets_false. Qed.
Print Assumptions C05_enter_sets_false.

(* one resumption of a leaf doer (s1 = the state after the step's effects): its
   flag becomes done_after kind r old exactly when the step returns r by itself;
   a yield, a raise, an interrupt leave every flag as it was *)
Theorem C05_done_after :
  forall (T : Type) (TT : Time T) (tk : T) (f : nat) (s : st T) (i : id) k sc pc s' r,
    run_step tk (S f) s i k sc pc = (s', r) ->
    let s1 := fst (run_effects tk f s i (f_es (nth pc sc default_step))) in
    match snd (run_effects tk f s i (f_es (nth pc sc default_step))), f_out (nth pc sc default_step) with
    | GFuel, _ | GRaise _, _ => dones s' = dones s1
    | _, OReturn rv => get_done s' i = done_after k rv (get_done s1 i) /\
                       (forall j, j <> i -> get_done s' j = get_done s1 j) /\ r = GReturn
    | _, _ => dones s' = dones s1
    end.
Proof. intros. now apply run_step_done. Qed.
Print Assumptions C05_done_after.

(* a DoDoer's own flag: after each of its recur passes that does not raise it is
   "my deque is empty"; the DoDoer finishes by itself exactly when that is True
   and it is not an `always` DoDoer (an `always` DoDoer keeps running with done = True) *)
Theorem C05_dodoer_flag :
  forall (T : Type) (TT : Time T) (tk : T) (f : nat) (s : st T) (i : id) pc t0 al kids s' r,
    get_gen s i = GSusp pc -> get (defs s) i = Some (FNest t0 al kids) ->
    gen_send tk (S f) s i = (s', r) ->
    let s2 := fst (recur_pass tk f (emit (set_gen s i (GRun pc)) Recur i) i) in
    let empty := match deeds (get_sched s2 i) with [] => true | _ => false end in
    pass_ok (snd (recur_pass tk f (emit (set_gen s i (GRun pc)) Recur i) i)) = true ->
    get_done s' i = Some empty /\ (r = GReturn <-> (empty = true /\ al = false)).
Proof. intros. eapply gen_send_nest_done; eassumption. Qed.
Print Assumptions C05_dodoer_flag.

(* forced close (close() of a doer, exit() of a scheduler, at any depth) never
   touches any done flag *)
Theorem C05_close_keeps_done :
  forall (T : Type) (TT : Time T) (tk : T) (f : nat) (s : st T),
    (forall i, dones (gen_close tk f s i) = dones s) /\
    (forall sid, dones (close_own tk f s sid) = dones s) /\
    (forall ds, dones (close_list tk f s ds) = dones s).
Proof. intros. apply close_keeps_dones. Qed.
Print Assumptions C05_close_keeps_done.

(* static flat programs: Doist.done and the final tyme are those of the reference
   cycle model (see C03_flat_refines) *)
Theorem C05_flat_done :
  forall (T : Type) (TT : Time T) (cycles fuel : nat) (p : prog T),
    flat_static p = true -> oof (do_run cycles fuel p) = false ->
    exists blocks (dn : bool),
      ref_run cycles p = Some (blocks, tyme (do_run cycles fuel p), dn) /\
      get_done (do_run cycles fuel p) 0%N = Some dn.
Proof.
  intros T TT cycles fuel p F O. destruct (do_run_ref cycles fuel p F O) as (res & dn & R & _ & Dn).
  exists res, dn. split; assumption.
Qed.
Print Assumptions C05_flat_done.

(* nested static programs (forests of effect-free leaves and non-`always` DoDoers with
   any tock, see C03_tree_refines): Doist.done and the final tyme are those of the tree
   reference cycle model; the stop rule (1.-3.) and the flag rules (4b, 4c) apply as to
   every program *)
Theorem C05_tree_done :
  forall (T : Type) (TT : Time T) (cycles fuel : nat) (p : prog T) (forest : list ptree),
    tree_static p forest -> oof (do_run cycles fuel p) = false ->
    exists blocks (dn : bool),
      tref_run cycles p forest = Some (blocks, tyme (do_run cycles fuel p), dn) /\
      get_done (do_run cycles fuel p) 0%N = Some dn.
Proof.
  intros T TT cycles fuel p forest St O. destruct (do_run_tree cycles fuel p forest St O) as (res & dn & R & _ & Dn).
  exists res, dn. split; assumption.
Qed.
Print Assumptions C05_tree_done.

(* ------------------------------------------------------------------ *)
(* 5. HISTORIES (Proofs/SchedHist.v): a first do()/ado() followed by further runs of the
   same doer objects, on the same Doist (RAgain limit tyme') or under a new Doist
   (RFresh limit tyme0 ds).  Every run of a history is  enter ; cycle_loop  from the
   state rr_start s r (tyme (re)set, root flag False, for RFresh a fresh root scheduler)
   over the doers rr_doers s r (the kept .doers / ds); its start tyme is rr_tyme s r
   (tyme' / tyme0 / the kept tyme), its limit rr_limit r.  All statements below are for
   s = run_hist ... h, ANY history h, and the next run r (sync or async).  No extra
   precondition on s is needed for the stop rule: what the rerun enters is whatever is
   startable in s (a doer still suspended is skipped by the model, as by Python). *)

(* the stop rule: FULL *)
Theorem C05_stop_rule_histories :
  forall (T : Type) (TT : Time T) (cycles fuel : nat) (asyn : bool) (p : prog T) (h : list rerun) (r : rerun) (n : nat),
    let tk := p_tock p in let s := run_hist cycles fuel asyn p h in
    let e := entered_from tk fuel (rr_start s r) (rr_doers s r) in
    let lim := lim_of (rr_limit r) in let stop := stop_of (rr_tyme s r) (rr_limit r) in
    enter_ok_from tk fuel (rr_start s r) (rr_doers s r) = true -> (n < cycles)%nat ->
    (forall j, (j <= n)%nat -> cycle_ok tk fuel (after tk fuel e j) = true) ->
    (forall j, (j < n)%nat -> stops lim stop (after tk fuel e (S j)) = false) ->
    stops lim stop (after tk fuel e (S n)) = true ->
    let s2 := after tk fuel e (S n) in
    run_hist cycles fuel asyn p (h ++ [r]) = finish tk fuel s2 /\
    tyme (run_hist cycles fuel asyn p (h ++ [r])) = grid (rr_tyme s r) tk (S n) /\
    get_done (run_hist cycles fuel asyn p (h ++ [r])) 0%N =
      match deeds (get_sched s2 0%N) with [] => Some true | _ => get_done s2 0%N end.
Proof.
  intros T TT cycles fuel asyn p h r n. cbv zeta. rewrite run_hist_snoc, rerun_step_tail, <- rr_start_tyme.
  apply tail_stop.
Qed.
Print Assumptions C05_stop_rule_histories.

(* ... and nothing else can happen in a rerun either: FULL *)
Theorem C05_exhaustive_histories :
  forall (T : Type) (TT : Time T) (cycles fuel : nat) (asyn : bool) (p : prog T) (h : list rerun) (r : rerun),
    let tk := p_tock p in let s := run_hist cycles fuel asyn p h in
    let s0 := rr_start s r in let ds := rr_doers s r in
    let e := entered_from tk fuel s0 ds in
    let lim := lim_of (rr_limit r) in let stop := stop_of (rr_tyme s r) (rr_limit r) in
    let fin := run_hist cycles fuel asyn p (h ++ [r]) in
    oof fin = true \/
    (exists s1 kbd, enter_own tk fuel s0 0%N ds = (s1, GRaise kbd) /\ fin = emit (close_own tk fuel s1 0%N) DoRaise 0%N) \/
    (exists n, (n < cycles)%nat /\
       (forall j, (j <= n)%nat -> cycle_ok tk fuel (after tk fuel e j) = true) /\
       (forall j, (j < n)%nat -> stops lim stop (after tk fuel e (S j)) = false) /\
       stops lim stop (after tk fuel e (S n)) = true /\
       fin = finish tk fuel (after tk fuel e (S n))) \/
    (exists n s1 kbd, (n < cycles)%nat /\
       (forall j, (j < n)%nat -> cycle_ok tk fuel (after tk fuel e j) = true /\ stops lim stop (after tk fuel e (S j)) = false) /\
       recur_pass tk fuel (after tk fuel e n) 0%N = (s1, GRaise kbd) /\
       fin = emit (close_own tk fuel s1 0%N) (if kbd then DoReturn else DoRaise) 0%N).
Proof.
  intros T TT cycles fuel asyn p h r. cbv zeta. rewrite run_hist_snoc, rerun_step_tail, <- rr_start_tyme.
  apply tail_cases.
Qed.
Print Assumptions C05_exhaustive_histories.

(* without a limit (None or falsy) the rerun returns right after the first cycle at whose end
   the deque is empty, with done = True; with a truthy limit L it stops after the first cycle
   whose end tyme satisfies start + |L| <= tyme or whose deque is empty, and done = True iff
   the deque was empty then.  FULL; the `iff` needs "no doer is numbered 0". *)
Theorem C05_limit_histories :
  forall (T : Type) (TT : Time T) (cycles fuel : nat) (asyn : bool) (p : prog T) (h : list rerun) (r : rerun) (n : nat),
    let tk := p_tock p in let s := run_hist cycles fuel asyn p h in
    let e := entered_from tk fuel (rr_start s r) (rr_doers s r) in
    let stop := stop_of (rr_tyme s r) (rr_limit r) in
    let fin := run_hist cycles fuel asyn p (h ++ [r]) in
    get (p_defs p) 0%N = None ->
    enter_ok_from tk fuel (rr_start s r) (rr_doers s r) = true -> (n < cycles)%nat ->
    (forall j, (j <= n)%nat -> cycle_ok tk fuel (after tk fuel e j) = true) ->
    (forall j, (j < n)%nat -> deeds (get_sched (after tk fuel e (S j)) 0%N) <> [] /\
         (limited (lim_of (rr_limit r)) = true -> tleb stop (grid (rr_tyme s r) tk (S j)) = false)) ->
    (deeds (get_sched (after tk fuel e (S n)) 0%N) = [] \/
     (limited (lim_of (rr_limit r)) = true /\ tleb stop (grid (rr_tyme s r) tk (S n)) = true)) ->
    tyme fin = grid (rr_tyme s r) tk (S n) /\
    (get_done fin 0%N = Some true <-> deeds (get_sched (after tk fuel e (S n)) 0%N) = []).
Proof.
  intros T TT cycles fuel asyn p h r n. cbv zeta. intros D0 Ok Hc Oks Ne St.
  set (s := run_hist cycles fuel asyn p h) in *.
  set (e := entered_from (p_tock p) fuel (rr_start s r) (rr_doers s r)) in *.
  assert (Ty : forall k, tyme (after (p_tock p) fuel e k) = grid (rr_tyme s r) (p_tock p) k).
  { intro k. rewrite after_tyme. unfold e. rewrite entered_from_tyme, rr_start_tyme. reflexivity. }
  destruct (C05_stop_rule_histories T TT cycles fuel asyn p h r n Ok Hc Oks) as (_ & Tyf & Dn).
  - intros j Hj. fold s e. unfold stops. rewrite Ty. destruct (Ne j Hj) as [N1 N2].
    destruct (deeds (get_sched (after (p_tock p) fuel e (S j)) 0%N)) eqn:Ed; [congruence|].
    destruct (limited (lim_of (rr_limit r))); [now rewrite N2|reflexivity].
  - fold s e. unfold stops. rewrite Ty. destruct St as [E|[L E]]; [now rewrite E|].
    destruct (deeds (get_sched (after (p_tock p) fuel e (S n)) 0%N)); [reflexivity|now rewrite L, E].
  - fold s e in Tyf, Dn. split; [exact Tyf|]. rewrite Dn.
    assert (Nt : get_done (after (p_tock p) fuel e (S n)) 0%N <> Some true).
    { unfold e. apply (tail_root_flag (p_tock p) fuel (p_defs p) D0).
      apply rr_start_dinv; [exact D0|]. apply (run_hist_inv cycles fuel asyn p D0 h). }
    destruct (deeds (get_sched (after (p_tock p) fuel e (S n)) 0%N)); split; intro X;
      try reflexivity; try discriminate; contradiction.
Qed.
Print Assumptions C05_limit_histories.

(* done flags after EVERY history (no doer numbered 0; oof = false): the exact rules 4b
   (leaves) and 4c (DoDoers that are not `always`) hold in the final state - each enter of a
   later run resets the flag to False, and the flag follows the most recent lifecycle *)
Theorem C05_flags_exact_histories :
  forall (T : Type) (TT : Time T) (cycles fuel : nat) (asyn : bool) (p : prog T) (h : list rerun) (i : id),
    get (p_defs p) 0%N = None ->
    let s := run_hist cycles fuel asyn p h in
    oof s = false ->
    match get (p_defs p) i with
    | Some (FLeaf k sc) => flag_ok k sc (evs i s) (get_done s i)
    | Some (FNest _ false _) => nflag_ok (evs i s) (get_done s i)
    | _ => True
    end.
Proof.
  intros T TT cycles fuel asyn p h i D0. cbv zeta. intro O.
  destruct (run_hist_inv cycles fuel asyn p D0 h) as (_ & [X|X]); [congruence|].
  destruct (get (p_defs p) i) as [[k sc|t0 [|] kids]|] eqn:G; try exact I.
  - now apply leaf_flag with (D := p_defs p).
  - now apply nest_flag with (D := p_defs p) (t0 := t0) (kids := kids).
Qed.
Print Assumptions C05_flags_exact_histories.

(* ------------------------------------------------------------------ *)
(* Non-vacuity.  A nested program with a limit that is not a multiple of tock:
   tock 2, start 10, limit 5 -> stop at the first cycle end >= 15, i.e. 16 (n = 2);
   doer 1 returns True at 12, doer 4 returns None, doer 5 is still alive at the end. *)
Definition Y (t : option Z) : fstep Z := {| f_es := []; f_out := OYield t |}.
Definition R (r : ret) : fstep Z := {| f_es := []; f_out := OReturn r |}.
Definition ex_limit : prog Z :=
  {| p_tock := 2%Z; p_limit := Some (-5)%Z; p_tyme := 10%Z; p_doers := [1; 2; 5]%N;
     p_defs := [(1, FLeaf KFunc [Y None; Y None; R RTrue]); (2, FNest 0%Z false [3; 4]);
                (3, FLeaf KDoer [Y None; Y None; Y None; Y None; Y None]); (4, FLeaf KDoerGen [Y None; R RNone]);
                (5, FLeaf KFunc [Y None; Y None; Y None; Y None; Y None; Y None])]%N |}.

Example C05_example_limit :
  let p := ex_limit in let tk := p_tock p in let s0 := entered 100 p in
  get (p_defs p) 0%N = None /\ limited (run_limit p) = true /\ enter_ok 100 p = true /\
  (forall j, (j <= 2)%nat -> cycle_ok tk 100 (after tk 100 s0 j) = true) /\
  (forall j, (j < 2)%nat -> deeds (get_sched (after tk 100 s0 (S j)) 0%N) <> [] /\
                            tleb (run_stop p) (grid (p_tyme p) tk (S j)) = false) /\
  tleb (run_stop p) (grid (p_tyme p) tk 3) = true /\
  oof (do_run 50 100 p) = false /\ tyme (do_run 50 100 p) = 16%Z /\
  get_done (do_run 50 100 p) 0%N = Some false /\
  get_done (do_run 50 100 p) 1%N = Some true /\ get_done (do_run 50 100 p) 4%N = None /\
  get_done (do_run 50 100 p) 5%N = Some false /\
  evs 1%N (do_run 50 100 p) = [Exit; Clean; Recur; Recur; Enter] /\
  evs 5%N (do_run 50 100 p) = [Exit; Cease; Recur; Recur; Recur; Enter] /\
  get (p_defs p) 2%N = Some (FNest 0%Z false [3%N; 4%N]) /\
  evs 2%N (do_run 50 100 p) = [Exit; Cease; Recur; Recur; Recur; Enter] /\ get_done (do_run 50 100 p) 2%N = Some false.
Proof.
  cbv zeta. split; [reflexivity|]. split; [reflexivity|]. split; [vm_compute; reflexivity|].
  split. { intros j Hj. destruct j as [|[|[|j]]]; try lia; vm_compute; reflexivity. }
  split. { intros j Hj. destruct j as [|[|j]]; try lia; (split; [vm_compute; discriminate|vm_compute; reflexivity]). }
  vm_compute. repeat split.
Qed.

(* C05_dodoer_flag: DoDoer 2 of ex_limit in the entered state is suspended; its first pass leaves doers 3 and 4 alive *)
Example C05_example_dodoer :
  let s := entered 100 ex_limit in
  get_gen s 2%N = GSusp 1 /\ get (defs s) 2%N = Some (FNest 0%Z false [3%N; 4%N]) /\
  pass_ok (snd (recur_pass 2%Z 20 (emit (set_gen s 2%N (GRun 1)) Recur 2%N) 2%N)) = true /\
  get_done (fst (gen_send 2%Z 21 s 2%N)) 2%N = Some false.
Proof. vm_compute. repeat split. Qed.

(* the same doers without a limit: all complete, the run ends at the first empty deque *)
Definition ex_nolimit : prog Z :=
  {| p_tock := 2%Z; p_limit := Some 0%Z; p_tyme := 10%Z; p_doers := [1; 2; 5]%N; p_defs := p_defs ex_limit |}.
Example C05_example_nolimit :
  let p := ex_nolimit in let tk := p_tock p in let s0 := entered 100 p in
  limited (run_limit p) = false /\ enter_ok 100 p = true /\
  (forall j, (j <= 5)%nat -> cycle_ok tk 100 (after tk 100 s0 j) = true) /\
  (forall j, (j < 5)%nat -> deeds (get_sched (after tk 100 s0 (S j)) 0%N) <> []) /\
  deeds (get_sched (after tk 100 s0 6) 0%N) = [] /\
  oof (do_run 50 100 p) = false /\ tyme (do_run 50 100 p) = 22%Z /\ get_done (do_run 50 100 p) 0%N = Some true /\
  (* DoDoer 2 returned by itself when its deque emptied *)
  firstn 2 (evs 2%N (do_run 50 100 p)) = [Exit; Clean] /\ get_done (do_run 50 100 p) 2%N = Some true.
Proof.
  cbv zeta. split; [reflexivity|]. split; [vm_compute; reflexivity|].
  split. { intros j Hj. destruct j as [|[|[|[|[|[|j]]]]]]; try lia; vm_compute; reflexivity. }
  split. { intros j Hj. destruct j as [|[|[|[|[|j]]]]]; try lia; vm_compute; discriminate. }
  vm_compute. repeat split.
Qed.

(* a history: the first run of ex_nolimit (all complete, ends at 22), then the same Doist
   again with a new limit 3 and the tyme reset to 100 (stops at 104 = first cycle end >= 103,
   doers alive: done False), then a new Doist at tyme 50 over doers [5; 1] without a limit *)
Definition ex_hist : list (@rerun Z) := [RAgain (Some 3%Z) (Some 100%Z); RFresh None 50%Z [5; 1]%N].
Example C05_example_histories :
  let p := ex_nolimit in let tk := p_tock p in
  let s := run_hist 50 100 false p [] in let r := RAgain (Some 3%Z) (Some 100%Z) in
  let e := entered_from tk 100 (rr_start s r) (rr_doers s r) in
  get (p_defs p) 0%N = None /\ rr_tyme s r = 100%Z /\ rr_doers s r = [1; 2; 5]%N /\
  enter_ok_from tk 100 (rr_start s r) (rr_doers s r) = true /\
  (forall j, (j <= 1)%nat -> cycle_ok tk 100 (after tk 100 e j) = true) /\
  (forall j, (j < 1)%nat -> deeds (get_sched (after tk 100 e (S j)) 0%N) <> [] /\
      (limited (lim_of (rr_limit r)) = true -> tleb (stop_of (rr_tyme s r) (rr_limit r)) (grid (rr_tyme s r) tk (S j)) = false)) /\
  limited (lim_of (rr_limit r)) = true /\ tleb (stop_of (rr_tyme s r) (rr_limit r)) (grid (rr_tyme s r) tk 2) = true /\
  oof (run_hist 50 100 false p ex_hist) = false /\
  tyme (run_hist 50 100 false p [r]) = 104%Z /\ get_done (run_hist 50 100 false p [r]) 0%N = Some false /\
  tyme (run_hist 50 100 false p ex_hist) = 62%Z /\ get_done (run_hist 50 100 false p ex_hist) 0%N = Some true /\
  run_hist 50 100 true p ex_hist = run_hist 50 100 false p ex_hist.
Proof.
  cbv zeta. split; [reflexivity|]. split; [reflexivity|]. split; [vm_compute; reflexivity|]. split; [vm_compute; reflexivity|].
  split. { intros j Hj. destruct j as [|[|j]]; try lia; vm_compute; reflexivity. }
  split. { intros j Hj. destruct j as [|j]; try lia. split; [vm_compute; discriminate|intros _; vm_compute; reflexivity]. }
  vm_compute. repeat split.
Qed.

(* The lifecycle core C05 relies on (kept from the interim version). *)
Theorem C05_lifecycles_core :
  forall (T : Type) (TT : Time T) (cycles fuel : nat) (p : prog T) (j : id),
    life_ok (get_gen (do_run cycles fuel p) j) (events j (do_run cycles fuel p)).
Proof. intros. apply do_run_lifecycles. Qed.
Print Assumptions C05_lifecycles_core.
