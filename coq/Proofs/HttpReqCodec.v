(* C14, general theorem, layer 1-2: UTF-8 and percent coding are inverted for
   every code point string (structural proofs, no sweeps). *)
From Hio Require Import Base.Prelude Model.HttpReqUrl Model.HttpTotal Model.HttpReq Proofs.HttpReqProofs.
From Coq Require Import String ZifyBool.
Local Open Scope N_scope.
Ltac Zify.zify_post_hook ::= Z.to_euclidean_division_equations.

(* decide the boolean tests of the decoder one after the other *)
Ltac step_if :=
  match goal with
  | |- context [if ?c then _ else _] =>
    let E := fresh "E" in
    destruct c eqn:E;
    [ try (exfalso; clear - E; repeat match goal with H : _ |- _ => revert H end; intros; lia)
    | try (exfalso; lia) ]
  end.

Lemma utf8_dec_1 c rest : c < 128 -> utf8_dec (c :: rest) = c :: utf8_dec rest.
Proof. intros H. cbn [utf8_dec]. destruct (c <? 128) eqn:E; [reflexivity|lia]. Qed.

Lemma utf8_dec_2 c rest : 128 <= c -> c < 2048 ->
  utf8_dec ((192 + c / 64) :: (128 + c mod 64) :: rest) = c :: utf8_dec rest.
Proof.
  intros H1 H2. cbn [utf8_dec].
  destruct (192 + c / 64 <? 128) eqn:E0; [lia|].
  destruct ((194 <=? 192 + c / 64) && (192 + c / 64 <=? 223)) eqn:E1; [|lia].
  unfold is_cont. destruct ((128 <=? 128 + c mod 64) && (128 + c mod 64 <=? 191)) eqn:E2; [|lia].
  f_equal. lia.
Qed.

Lemma utf8_dec_3 c rest : 2048 <= c -> c < 65536 -> ~ (55296 <= c <= 57343) ->
  utf8_dec ((224 + c / 4096) :: (128 + (c / 64) mod 64) :: (128 + c mod 64) :: rest) = c :: utf8_dec rest.
Proof.
  intros H1 H2 H3. cbn [utf8_dec].
  destruct (224 + c / 4096 <? 128) eqn:E0; [lia|].
  destruct ((194 <=? 224 + c / 4096) && (224 + c / 4096 <=? 223)) eqn:E1; [lia|].
  destruct ((224 <=? 224 + c / 4096) && (224 + c / 4096 <=? 239)) eqn:E2; [|lia].
  destruct (N.eqb (224 + c / 4096) 224) eqn:Ea; destruct (N.eqb (224 + c / 4096) 237) eqn:Eb; try lia.
  all: match goal with |- context [(?lo <=? ?b1) && (?b1 <=? ?hi)] =>
         destruct ((lo <=? b1) && (b1 <=? hi)) eqn:E3; [|lia] end.
  all: unfold is_cont; destruct ((128 <=? 128 + c mod 64) && (128 + c mod 64 <=? 191)) eqn:E4; [|lia].
  all: f_equal; lia.
Qed.

Lemma utf8_dec_4 c rest : 65536 <= c -> c < 1114112 ->
  utf8_dec ((240 + c / 262144) :: (128 + (c / 4096) mod 64) :: (128 + (c / 64) mod 64) :: (128 + c mod 64) :: rest)
  = c :: utf8_dec rest.
Proof.
  intros H1 H2. cbn [utf8_dec].
  destruct (240 + c / 262144 <? 128) eqn:E0; [lia|].
  destruct ((194 <=? 240 + c / 262144) && (240 + c / 262144 <=? 223)) eqn:E1; [lia|].
  destruct ((224 <=? 240 + c / 262144) && (240 + c / 262144 <=? 239)) eqn:E2; [lia|].
  destruct ((240 <=? 240 + c / 262144) && (240 + c / 262144 <=? 244)) eqn:E3; [|lia].
  destruct (N.eqb (240 + c / 262144) 240) eqn:Ea; destruct (N.eqb (240 + c / 262144) 244) eqn:Eb; try lia.
  all: match goal with |- context [(?lo <=? ?b1) && (?b1 <=? ?hi)] =>
         destruct ((lo <=? b1) && (b1 <=? hi)) eqn:E4; [|lia] end.
  all: unfold is_cont; destruct ((128 <=? 128 + (c / 64) mod 64) && (128 + (c / 64) mod 64 <=? 191)) eqn:E5; [|lia].
  all: destruct ((128 <=? 128 + c mod 64) && (128 + c mod 64 <=? 191)) eqn:E6; [|lia].
  all: f_equal; lia.
Qed.

(* one scalar value, any continuation *)
Lemma utf8_dec_enc1 c rest : scalar c = true -> utf8_dec (utf8_enc1 c ++ rest) = c :: utf8_dec rest.
Proof.
  intros Hs. unfold scalar in Hs. unfold utf8_enc1.
  destruct (c <? 128) eqn:E1; [apply utf8_dec_1; lia|].
  destruct (c <? 2048) eqn:E2; [apply utf8_dec_2; lia|].
  destruct ((55296 <=? c) && (c <=? 57343)) eqn:E3; [lia|].
  destruct (c <? 65536) eqn:E4; [apply utf8_dec_3; lia|].
  apply utf8_dec_4; lia.
Qed.

Theorem utf8_dec_enc s : text_ok s = true -> utf8_dec (utf8_enc s) = s.
Proof.
  unfold text_ok, utf8_enc. induction s as [|c s IH]; intros H; [reflexivity|].
  cbn [forallb] in H. apply andb_true_iff in H. destruct H as [Hc Hs].
  cbn [flat_map]. rewrite utf8_dec_enc1 by exact Hc. now rewrite IH.
Qed.

Lemma utf8_enc1_bytes c : scalar c = true -> Forall (fun b => b < 256) (utf8_enc1 c).
Proof.
  intros Hs. unfold scalar in Hs. unfold utf8_enc1.
  destruct (c <? 128) eqn:E1; [repeat constructor; lia|].
  destruct (c <? 2048) eqn:E2; [repeat constructor; lia|].
  destruct ((55296 <=? c) && (c <=? 57343)) eqn:E3; [repeat constructor; lia|].
  destruct (c <? 65536) eqn:E4; repeat constructor; lia.
Qed.

Lemma utf8_enc_bytes s : text_ok s = true -> Forall (fun b => b < 256) (utf8_enc s).
Proof.
  unfold text_ok, utf8_enc. induction s as [|c s IH]; intros H; [constructor|].
  cbn [forallb] in H. apply andb_true_iff in H. destruct H as [Hc Hs].
  cbn [flat_map]. apply Forall_app. split; [now apply utf8_enc1_bytes|now apply IH].
Qed.

(* ---------- characters of a quoted string ---------- *)
Definition qchar (safe : list N) (c : N) : bool := always_safe c || mem_n c safe || N.eqb c 37.

Lemma hexdig_safe v : v < 16 -> always_safe (hexdig v) = true.
Proof.
  intros H. assert (Hall : forall v, v < 16 -> always_safe (hexdig v) = true).
  { apply all_below_spec. vm_compute. reflexivity. }
  now apply Hall.
Qed.

Lemma quote_byte_chars safe b : b < 256 -> forallb (qchar safe) (quote_byte safe b) = true.
Proof.
  intros Hb. unfold quote_byte. destruct (always_safe b || mem_n b safe) eqn:E.
  - cbn [forallb]. unfold qchar. rewrite E. reflexivity.
  - cbn [forallb]. unfold qchar.
    rewrite (hexdig_safe (b / 16)) by lia. rewrite (hexdig_safe (b mod 16)) by lia.
    rewrite N.eqb_refl. cbn. rewrite !orb_true_r. reflexivity.
Qed.

Lemma quote_chars safe s : text_ok s = true -> forallb (qchar safe) (quote safe s) = true.
Proof.
  intros H. unfold quote. pose proof (utf8_enc_bytes s H) as Hb.
  induction Hb as [|b bs Hb _ IH]; [reflexivity|].
  cbn [flat_map]. rewrite forallb_app, quote_byte_chars by exact Hb. exact IH.
Qed.

Lemma always_safe_ascii c : always_safe c = true -> c < 128.
Proof.
  unfold always_safe, is_alpha, is_upper, is_lower, is_digit, mem_n. cbn [existsb]. intros H. lia.
Qed.

Definition safe_ok (safe : list N) : Prop := mem_n 37 safe = false /\ forallb (fun c => c <? 128) safe = true.

Lemma mem_n_in c l : mem_n c l = true -> In c l.
Proof.
  unfold mem_n. intros H. apply existsb_exists in H. destruct H as [x [Hx He]]. apply N.eqb_eq in He. now subst.
Qed.

Lemma qchar_ascii safe c : safe_ok safe -> qchar safe c = true -> c < 128.
Proof.
  intros [_ Hs] H. unfold qchar in H. apply orb_true_iff in H. destruct H as [H|H].
  - apply orb_true_iff in H. destruct H as [H|H]; [now apply always_safe_ascii|].
    apply mem_n_in in H. rewrite forallb_forall in Hs. specialize (Hs _ H). lia.
  - apply N.eqb_eq in H. lia.
Qed.

(* ---------- unquote on an ASCII string ---------- *)
Lemma frev_rev {A} (l : list A) : frev l = rev l.
Proof. unfold frev. symmetry. apply rev_alt. Qed.

Lemma unquote_runs_ascii : forall s run, forallb (fun c => c <? 128) s = true ->
  unquote_runs s run = utf8_dec (unquote_bytes (rev run ++ s)).
Proof.
  induction s as [|c s IH]; intros run H.
  - cbn [unquote_runs]. now rewrite frev_rev, app_nil_r.
  - cbn [forallb] in H. apply andb_true_iff in H. destruct H as [Hc Hs].
    cbn [unquote_runs]. rewrite Hc, IH by exact Hs. cbn [rev]. now rewrite <- app_assoc.
Qed.

Lemma unquote_bytes_nopct s : mem_n 37 s = false -> unquote_bytes s = s.
Proof.
  induction s as [|c s IH]; intros H; [reflexivity|].
  unfold mem_n in H. cbn [existsb] in H. apply orb_false_iff in H. destruct H as [Hc Hs].
  cbn [unquote_bytes]. rewrite N.eqb_sym in Hc. rewrite Hc. f_equal. apply IH. exact Hs.
Qed.

Lemma utf8_dec_ascii s : forallb (fun c => c <? 128) s = true -> utf8_dec s = s.
Proof.
  induction s as [|c s IH]; intros H; [reflexivity|].
  cbn [forallb] in H. apply andb_true_iff in H. destruct H as [Hc Hs].
  rewrite utf8_dec_1 by lia. now rewrite IH.
Qed.

Lemma unquote_ascii s : forallb (fun c => c <? 128) s = true -> unquote s = utf8_dec (unquote_bytes s).
Proof.
  intros H. unfold unquote. destruct (mem_n 37 s) eqn:E.
  - now rewrite unquote_runs_ascii.
  - rewrite unquote_bytes_nopct by exact E. symmetry. now apply utf8_dec_ascii.
Qed.

Lemma quote_ascii safe s : safe_ok safe -> text_ok s = true -> forallb (fun c => c <? 128) (quote safe s) = true.
Proof.
  intros Hsafe H. pose proof (quote_chars safe s H) as Hq. rewrite forallb_forall in *.
  intros c Hc. specialize (Hq c Hc). apply N.ltb_lt. eapply qchar_ascii; eauto.
Qed.

(* quote is inverted by unquote on every string of scalar values *)
Theorem unquote_quote safe s : safe_ok safe -> text_ok s = true -> unquote (quote safe s) = s.
Proof.
  intros Hsafe H. rewrite unquote_ascii by now apply quote_ascii.
  unfold quote. rewrite unquote_quote_bytes; [now apply utf8_dec_enc|apply Hsafe|now apply utf8_enc_bytes].
Qed.

(* ---------- quote_plus / unquote_plus ---------- *)
Lemma map_id_notin (a b : N) s : mem_n a s = false -> map (fun c => if N.eqb c a then b else c) s = s.
Proof.
  induction s as [|c s IH]; intros H; [reflexivity|].
  unfold mem_n in H. cbn [existsb] in H. apply orb_false_iff in H. destruct H as [Hc Hs].
  cbn [map]. rewrite N.eqb_sym in Hc. rewrite Hc. f_equal. now apply IH.
Qed.

Lemma map_swap_back (a b : N) s : mem_n b s = false ->
  map (fun c => if N.eqb c b then a else c) (map (fun c => if N.eqb c a then b else c) s) = s.
Proof.
  induction s as [|c s IH]; intros H; [reflexivity|].
  unfold mem_n in H. cbn [existsb] in H. apply orb_false_iff in H. destruct H as [Hc Hs].
  cbn [map]. rewrite IH by exact Hs. f_equal.
  destruct (N.eqb c a) eqn:E; [rewrite N.eqb_refl; apply N.eqb_eq in E; now subst|].
  rewrite N.eqb_sym in Hc. now rewrite Hc.
Qed.

(* a character that is not safe, not in [safe] and not '%' does not occur in a quoted string *)
Lemma quote_notin safe s c : text_ok s = true -> qchar safe c = false -> mem_n c (quote safe s) = false.
Proof.
  intros H Hc. pose proof (quote_chars safe s H) as Hq.
  destruct (mem_n c (quote safe s)) eqn:E; [|reflexivity].
  apply mem_n_in in E. rewrite forallb_forall in Hq. specialize (Hq c E). congruence.
Qed.

Theorem unquote_plus_quote_plus s : text_ok s = true -> unquote_plus (quote_plus [] s) = s.
Proof.
  intros H. unfold unquote_plus, quote_plus. destruct (mem_n 32 s) eqn:E.
  - rewrite map_swap_back by (apply quote_notin; [exact H|reflexivity]).
    apply unquote_quote; [split; reflexivity|exact H].
  - rewrite map_id_notin by (apply quote_notin; [exact H|reflexivity]).
    apply unquote_quote; [split; reflexivity|exact H].
Qed.
