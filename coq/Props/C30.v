(* C30 — running under asyncio gives the same schedule as the plain loop.
   In src/hio/base/doing.py Doist.ado is Doist.do with `await asyncio.sleep(0)` between
   cycles (and an AsyncTimer in real-time mode); no scheduler state is involved in
   the wait, so the model has ONE definition of the run for both (Model/Sched.v:
   ado_run := do_run).  The theorem below is therefore true by construction and
   carries no assurance by itself.  What decides C30 is the two-way correspondence
   of harness/drivers/c30.py: every generated program is run twice on the real
   Doist, with do() and with asyncio.run(ado()); both observations (full event
   trace with tymes, done flags, doers lists, final tyme, raised/returned) must
   equal the one model run and each other.  The theorems about do_run (C01–C06)
   transfer to ado through that equality. *)
From Hio Require Import Base.Prelude Base.Time Model.Sched.

Theorem C30_ado_is_do :
  forall (T : Type) (TT : Time T) (cycles fuel : nat) (p : prog T), ado_run cycles fuel p = do_run cycles fuel p.
Proof. reflexivity. Qed.
Print Assumptions C30_ado_is_do.
