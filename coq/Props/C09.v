(* C09 — TCP/TLS byte streams are delivered exactly, in order, under partial I/O;
   a wire log records exactly the bytes sent and received.
   Statements only; proofs are in Proofs/StreamProofs.v.

   Quantification: [c] ranges over the four connection classes (Client, ClientTls,
   Remoter, RemoterTls) x wire log attached or not per direction; [ops] over ALL
   sequences of tx / serviceSends / serviceReceives / serviceReceiveOnce / service /
   clearRxbs / connect calls, where every socket call is answered arbitrarily:
   a send by "kernel takes up to n bytes" for any n (0, partial, all, more) or by an
   OSError with any code (would-block, connection fault, anything else, which raises
   out of the op and the sequence continues); a recv by any chunk, EOF or any OSError.
   [k_sent] / [k_recvd] are the bytes the kernel accepted / delivered, in order: the
   peer can have received at most [k_sent]. *)
From Hio Require Import Base.Prelude Model.Stream Proofs.StreamProofs.

(* Everything handed to tx, in order, is exactly (accepted by the kernel) ++ (still
   queued): no byte lost, duplicated or reordered, whatever the kernel answered. *)
Theorem C09_prefix : forall c conn0 ops,
  let s := exec c (init conn0) ops in
  k_sent s ++ txbs s = all_tx ops.
Proof. exact prefix_invariant. Qed.
Print Assumptions C09_prefix.

(* ... so what the peer has received is a prefix of everything transmitted so far *)
Theorem C09_peer_prefix : forall c conn0 ops,
  exists rest, all_tx ops = k_sent (exec c (init conn0) ops) ++ rest.
Proof. intros. eexists. symmetry. apply prefix_invariant. Qed.
Print Assumptions C09_peer_prefix.

(* ... and it only ever grows: continuing any history by any ops appends to it. *)
Theorem C09_sent_monotone : forall c conn0 ops more,
  exists d, k_sent (exec c (init conn0) (ops ++ more)) = k_sent (exec c (init conn0) ops) ++ d.
Proof. intros. rewrite exec_app. apply sent_monotone. Qed.
Print Assumptions C09_sent_monotone.

(* Receive direction: what the application has consumed plus what waits in rxbs is
   exactly what the kernel delivered, in order. *)
Theorem C09_rx : forall c conn0 ops,
  let s := exec c (init conn0) ops in
  taken s ++ rxbs s = k_recvd s.
Proof. intros. apply (Inv_exec c ops _ (Inv_init c conn0)). Qed.
Print Assumptions C09_rx.

(* Wire log attached with a fixed configuration (no close/reopen of the log during the
   history): the tx records concatenate to exactly the bytes sent, the rx records to
   exactly the bytes received (empty when that direction is not logged). *)
Theorem C09_wirelog : forall c conn0 ops,
  no_wl ops = true ->
  let s := exec c (init conn0) ops in
  log_of DTx (wlog s) = (if wl_tx c then k_sent s else []) /\
  log_of DRx (wlog s) = (if wl_rx c then k_recvd s else []).
Proof.
  intros c conn0 ops H s.
  destruct (Inv_exec c ops _ (Inv_init c conn0)) as (_ & T & R & _ & E). fold s in T, R, E.
  assert (N : wl_now s = None) by (unfold s; now rewrite (no_wl_static c ops _ H)).
  destruct (E N) as [E1 E2]. rewrite T, R. auto.
Qed.
Print Assumptions C09_wirelog.

(* Wire log reconfigured or closed while attached (WlSet ops anywhere in the history [pre]):
   over any continuation without reconfiguration, the log of a direction that is disabled
   receives nothing and the log of an enabled direction grows by exactly the bytes the
   kernel moved in that direction, in order.  No record is ever empty. *)
Theorem C09_wirelog_reconfigured : forall c conn0 pre ops,
  no_wl ops = true ->
  let s := exec c (init conn0) pre in
  let s' := exec c s ops in
  exists ds dr,
    k_sent s' = k_sent s ++ ds /\ k_recvd s' = k_recvd s ++ dr /\
    log_of DTx (wlog s') = log_of DTx (wlog s) ++ (if log_on c s DTx then ds else []) /\
    log_of DRx (wlog s') = log_of DRx (wlog s) ++ (if log_on c s DRx then dr else []).
Proof. exact wirelog_segment. Qed.
Print Assumptions C09_wirelog_reconfigured.

Theorem C09_wirelog_no_empty_record : forall c conn0 ops,
  Forall (fun r => snd r <> []) (wlog (exec c (init conn0) ops)).
Proof. intros. apply (Inv_exec c ops _ (Inv_init c conn0)). Qed.
Print Assumptions C09_wirelog_no_empty_record.

Example C09_wirelog_reconfigured_example :
  let c := {| kd := KRemoter; wl_tx := true; wl_rx := true |} in
  let pre := [Tx [1;2;3;4;5;6]%N; SvcSends (SAccept 2); WlSet false true] in
  let ops := [SvcSends (SAccept 3); SvcRecvs [RData [9]%N]] in
  no_wl ops = true /\ log_on c (exec c (init true) pre) DTx = false /\
  wlog (exec c (init true) (pre ++ ops ++ [WlSet true true; SvcSends (SAccept 1)]))
    = [(DTx, [1;2]); (DRx, [9]); (DTx, [6])]%N.
Proof. vm_compute. repeat split. Qed.

(* A would-block (or raising) answer, and a zero-byte accept, leave the connection
   exactly as it was: the attempt can simply be repeated. *)
Theorem C09_block_is_noop : forall c s e,
  classify (kd c) DTx e <> CutOff ->
  st (service_sends c s (SFail e)) = s /\ st (service_sends c s (SAccept 0)) = s.
Proof. intros. split; [now apply sends_block_noop | apply sends_zero_noop]. Qed.
Print Assumptions C09_block_is_noop.

(* Liveness: from any state of a healthy connection (connected, not cut off), if every
   service finds the kernel taking at least one byte, length txbs services deliver
   everything that was queued. *)
Theorem C09_live : forall c s ns,
  gate c s = true ->
  Forall (fun n => 1 <= n) ns ->
  length (txbs s) <= length ns ->
  let s' := exec c s (map (fun n => SvcSends (SAccept n)) ns) in
  txbs s' = [] /\ k_sent s' = k_sent s ++ txbs s.
Proof. intros c s ns G F L. destruct (drain c ns s G F L) as (A & B & _). split; assumption. Qed.
Print Assumptions C09_live.

(* Liveness under ANY healthy interleaving: from any healthy state, any sequence of
   servicing ops (sends answered by accepts or would-block, receives answered by data or
   would-block, service, clearRxbs, connect; no new tx) keeps the connection healthy, loses
   nothing, and leaves at most length txbs - (number of services in which the kernel took
   >= 1 byte) bytes queued; so once that number reaches length txbs everything queued has
   been accepted by the kernel. *)
Theorem C09_live_interleaved : forall c ops s,
  gate c s = true -> forallb (healthy c) ops = true ->
  let s' := exec c s ops in
  gate c s' = true /\ length (txbs s') <= length (txbs s) - progress_count ops /\
  k_sent s' ++ txbs s' = k_sent s ++ txbs s.
Proof. exact healthy_drain. Qed.
Print Assumptions C09_live_interleaved.

Theorem C09_live_delivers_all : forall c ops s,
  gate c s = true -> forallb (healthy c) ops = true -> length (txbs s) <= progress_count ops ->
  txbs (exec c s ops) = [] /\ k_sent (exec c s ops) = k_sent s ++ txbs s.
Proof.
  intros c ops s G H L. destruct (healthy_drain c ops s G H) as (_ & B & C).
  assert (E : txbs (exec c s ops) = []) by (destruct (txbs (exec c s ops)); [reflexivity|cbn in B; lia]).
  split; [exact E|]. rewrite E, app_nil_r in C. exact C.
Qed.
Print Assumptions C09_live_delivers_all.

Example C09_live_interleaved_example :
  let c := {| kd := KClient; wl_tx := true; wl_rx := true |} in
  let s := exec c (init true) [Tx [1;2;3;4]%N; SvcSends (SAccept 1)] in
  let ops := [SvcSends (SFail EAGAIN); SvcRecvs [RData [9]%N; RFail EAGAIN]; Service (SAccept 1) [RData [8]%N];
              TakeRx; SvcSends (SAccept 2); SvcRecvOnce (RData [7]%N); SvcSends (SAccept 0); SvcSends (SAccept 5)] in
  gate c s = true /\ forallb (healthy c) ops = true /\ length (txbs s) <= progress_count ops /\
  txbs (exec c s ops) = [] /\ k_sent (exec c s ops) = [1;2;3;4]%N.
Proof. vm_compute. repeat split. lia. Qed.

(* Non-vacuity: partial sends, would-block, a fault that cuts, short reads, EOF. *)
Example C09_example :
  let c := {| kd := KClientTls; wl_tx := true; wl_rx := true |} in
  let ops := [Tx [1;2;3]%N; SvcSends (SAccept 2); Tx [4;5]%N; SvcSends (SFail SSL_WANT_WRITE);
              SvcSends (SAccept 1); SvcRecvs [RData [7;8]%N; RData [9]%N; RFail SSL_WANT_READ];
              TakeRx; SvcRecvs [RData [10]%N; RData []]; SvcSends (SAccept 5)] in
  let s := exec c (init true) ops in
  k_sent s = [1;2;3]%N /\ txbs s = [4;5]%N /\ cutoff s = true /\
  taken s = [7;8;9]%N /\ rxbs s = [10]%N /\
  wlog s = [(DTx, [1;2]); (DTx, [3]); (DRx, [7;8]); (DRx, [9]); (DRx, [10])]%N.
Proof. vm_compute. repeat split. Qed.

Example C09_live_example :
  let c := {| kd := KRemoter; wl_tx := false; wl_rx := false |} in
  let s := exec c (init true) [Tx [1;2;3;4;5]%N; SvcSends (SFail EAGAIN)] in
  gate c s = true /\ length (txbs s) <= length [2;1;1;7;1] /\
  txbs (exec c s (map (fun n => SvcSends (SAccept n)) [2;1;1;7;1])) = [].
Proof. vm_compute. repeat split; lia. Qed.
